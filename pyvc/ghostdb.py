"""Ghost relational state: one z3 array per column of every table of the
real `models.BASE.metadata`, plus the derived aggregates `usage`, `held`,
`total_held` (A-sum) -- and the Tier-A semantics of UPDATE / DELETE / INSERT
statements built by the real code with the real SQLAlchemy."""
import z3

from sqlalchemy.sql import elements as sa_el
from sqlalchemy.sql import operators as sa_ops
from sqlalchemy.sql import dml as sa_dml
from sqlalchemy import types as sa_types

from pyvc.core import Undecided
from pyvc.values import (Sym, Obj, VList, VDict, VSet, SList, SSet, SMap, Native,
                         StrSort, sort_of)
from pyvc import ops
from pyvc.ops import to_term, from_term

# composite keys (A-key: the unique / primary-key constraints of models.py)
COMPOSITE_KEYS = {
    'inventories': ('resource_provider_id', 'resource_class_id'),
    'resource_provider_aggregates': ('resource_provider_id', 'aggregate_id'),
    'resource_provider_traits': ('resource_provider_id', 'trait_id'),
}
IGNORED_COLUMNS = ('created_at', 'updated_at')
PAIR = ('tuple', ('int', 'int'))
HELD_KEY = ('tuple', ('str', 'int', 'int'))


def col_type(col):
    t = col.type
    if isinstance(t, sa_types.Integer):
        return 'int'
    if isinstance(t, sa_types.Float):
        return 'real'
    if isinstance(t, (sa_types.String, sa_types.Unicode)):
        return 'str'
    return None


def _mentions_var(t, v):
    seen = set()
    stack = [t]
    while stack:
        x = stack.pop()
        if x.get_id() in seen:
            continue
        seen.add(x.get_id())
        if x.eq(v):
            return True
        stack.extend(x.children())
    return False


class Table(object):
    def __init__(self, satable, tag):
        self.sa = satable
        self.name = satable.name
        self.keycols = COMPOSITE_KEYS.get(self.name, ('id',))
        self.kty = PAIR if len(self.keycols) == 2 else 'int'
        self.cols = {}
        for c in satable.columns:
            if c.name in IGNORED_COLUMNS:
                continue
            ty = col_type(c)
            if ty is None:
                continue
            self.cols[c.name] = (ty, bool(c.nullable) and not c.primary_key)
        ks = sort_of(self.kty)
        self.exists = z3.Const('%s.%s.exists' % (tag, self.name),
                               z3.ArraySort(ks, z3.BoolSort()))
        self.data = {}
        self.null = {}
        for cn, (ty, nullable) in self.cols.items():
            if cn in self.keycols:
                continue
            self.data[cn] = z3.Const('%s.%s.%s' % (tag, self.name, cn),
                                     z3.ArraySort(ks, sort_of(ty)))
            if nullable:
                self.null[cn] = z3.Const('%s.%s.%s?null' % (tag, self.name, cn),
                                         z3.ArraySort(ks, z3.BoolSort()))

    def clone(self):
        t = object.__new__(Table)
        t.__dict__.update(self.__dict__)
        t.data = dict(self.data)
        t.null = dict(self.null)
        return t

    def key_component(self, key, colname):
        if self.kty == 'int':
            return key
        s = sort_of(self.kty)
        return s.accessor(0, self.keycols.index(colname))(key)

    def col(self, colname, key):
        """(term, null-flag) of a column in the row with the given key."""
        if colname in self.keycols:
            return self.key_component(key, colname), False
        if colname not in self.data:
            raise Undecided('column %s.%s is not modelled' % (self.name, colname))
        nf = z3.Select(self.null[colname], key) if colname in self.null else False
        return z3.Select(self.data[colname], key), nf

    def mk_key(self, **kv):
        if self.kty == 'int':
            return kv['id']
        return sort_of(self.kty).mk(*[kv[c] for c in self.keycols])


class ExecResult(Native):
    """Result of session.execute() for a DML statement."""

    def __init__(self, rowcount=None, lastrowid=None):
        self.rowcount = rowcount
        self.lastrowid = lastrowid

    def getattr(self, I, name):
        if name == 'rowcount':
            return self.rowcount
        if name == 'lastrowid':
            return self.lastrowid
        if name == 'inserted_primary_key':
            return (self.lastrowid,)
        raise Undecided('ExecResult.%s' % name)


class GhostDB(object):
    def __init__(self, I, tag='db'):
        from placement.db.sqlalchemy import models
        self.I = I
        self.tag = tag
        self.tables = {}
        for t in models.BASE.metadata.sorted_tables:
            self.tables[t.name] = Table(t, tag)
        ps = sort_of(PAIR)
        hs = sort_of(HELD_KEY)
        self.usage = z3.Const(tag + '.usage', z3.ArraySort(ps, z3.IntSort()))
        self.held = z3.Const(tag + '.held', z3.ArraySort(hs, z3.IntSort()))
        self.total_held = z3.Const(tag + '.total_held',
                                   z3.ArraySort(StrSort, z3.IntSort()))
        self.writes = []          # log of (table, kind, txn id) for typestate
        self.fresh_ids = 0

    def havoc(self, names):
        """Replace the named tables (and 'aggregates') by unconstrained ones
        (loop frames, interference)."""
        tag = self.I.ex.fresh_name('hv')
        for n in names:
            if n == 'aggregates':
                self.usage = z3.Const(tag + '.usage', self.usage.sort())
                self.held = z3.Const(tag + '.held', self.held.sort())
                self.total_held = z3.Const(tag + '.total_held',
                                           self.total_held.sort())
                continue
            self.tables[n] = Table(self.tables[n].sa, tag)

    def _tid(self):
        st = self.I.txn_stack
        return st[-1]['id'] if st else None

    # ------------------------------------------------------------ snapshots
    def snapshot(self):
        s = object.__new__(GhostDB)
        s.__dict__.update(self.__dict__)
        s.tables = {k: t.clone() for k, t in self.tables.items()}
        s.writes = list(self.writes)
        return s

    def same_core_state(self, other, tables=None):
        """z3 formula: every modelled column of the given tables is equal
        (as arrays) in self and other."""
        eqs = []
        for name, t in self.tables.items():
            if tables is not None and name not in tables:
                continue
            o = other.tables[name]
            eqs.append(t.exists == o.exists)
            # columns compared only where the row exists
            k = z3.Const('k!same.' + name, sort_of(t.kty))
            per = []
            for cn in t.data:
                per.append(z3.Select(t.data[cn], k) == z3.Select(o.data[cn], k))
                if cn in t.null:
                    per.append(z3.Select(t.null[cn], k) == z3.Select(o.null[cn], k))
            if per:
                eqs.append(ops.forall([k], z3.Implies(z3.Select(t.exists, k),
                                                     z3.And(*per))))
        return z3.And(*eqs)

    # ------------------------------------------------------- well-formedness
    def row_invariants(self):
        """One-state rely clauses R3/R4 (hypotheses)."""
        out = []
        inv = self.tables['inventories']
        k = z3.Const('k!rowinv', sort_of(PAIR))
        out.append(ops.forall([k], z3.Implies(
            z3.Select(inv.exists, k),
            z3.And(z3.Select(inv.data['total'], k) >= 1,
                   z3.Select(inv.data['reserved'], k) >= 0,
                   z3.Select(inv.data['min_unit'], k) >= 1,
                   z3.Select(inv.data['max_unit'], k) >= 1,
                   z3.Select(inv.data['step_size'], k) >= 1)),
            patterns=[z3.Select(inv.exists, k)]))
        rpt = self.tables['resource_providers']
        if 'generation' in rpt.null:
            ki = z3.Int('k!rpgen')
            # the generation column is declared nullable with default 0; every
            # insert of the tree goes through that default, no statement
            # writes NULL (guarantee checked with the provider writers)
            out.append(ops.forall([ki], z3.Implies(
                z3.Select(rpt.exists, ki),
                z3.Not(z3.Select(rpt.null['generation'], ki))),
                patterns=[z3.Select(rpt.exists, ki)]))
        # unique uuid of providers and consumers
        for tn in ('resource_providers', 'consumers'):
            t = self.tables[tn]
            a, b = z3.Ints('a!uq.%s b!uq.%s' % (tn, tn))
            u = t.data['uuid']
            out.append(ops.forall([a, b], z3.Implies(
                z3.And(z3.Select(t.exists, a), z3.Select(t.exists, b),
                       z3.Select(u, a) == z3.Select(u, b)), a == b),
                patterns=[z3.MultiPattern(z3.Select(u, a), z3.Select(u, b))]))
        out.extend(self.aggregate_invariants())
        return out

    def aggregate_invariants(self):
        """A-sum consequences: 0 <= held <= usage ; held <= total_held."""
        out = []
        h = z3.Const('h!agg', sort_of(HELD_KEY))
        hs = sort_of(HELD_KEY)
        pk = sort_of(PAIR).mk(hs.accessor(0, 1)(h), hs.accessor(0, 2)(h))
        out.append(ops.forall([h], z3.And(
            z3.Select(self.held, h) >= 0,
            z3.Select(self.held, h) <= z3.Select(self.usage, pk),
            z3.Select(self.held, h) <= z3.Select(self.total_held,
                                                 hs.accessor(0, 0)(h))),
            patterns=[z3.Select(self.held, h)]))
        p = z3.Const('p!agg', sort_of(PAIR))
        out.append(ops.forall([p], z3.Select(self.usage, p) >= 0,
                             patterns=[z3.Select(self.usage, p)]))
        return out

    # ------------------------------------------------- predicate evaluation
    def term_of(self, expr, table, key, binds):
        """(z3 term, null flag, ty) of a SQL scalar expression over one row."""
        if isinstance(expr, sa_el.BindParameter):
            v = binds.get(expr.key, expr.value) if expr.key in binds else expr.value
            if v is None:
                return None, True, None
            return to_term(v), ops.none_flag(v), ops.ty_of(v)
        if hasattr(expr, 'table') and hasattr(expr, 'name') and \
                getattr(expr, 'table', None) is not None:
            if expr.table.name != table.name:
                raise Undecided('column of another table in single-table '
                                'statement: %s' % expr)
            t, nf = table.col(expr.name, key)
            return t, nf, table.cols[expr.name][0]
        if isinstance(expr, sa_el.Null):
            return None, True, None
        if isinstance(expr, sa_el.Grouping):
            return self.term_of(expr.element, table, key, binds)
        if isinstance(expr, sa_el.BinaryExpression) and \
                expr.operator in (sa_ops.add, sa_ops.sub, sa_ops.mul):
            lt, ln, lty = self.term_of(expr.left, table, key, binds)
            rt, rn, rty = self.term_of(expr.right, table, key, binds)
            ty = 'real' if 'real' in (lty, rty) else 'int'
            if ty == 'real':
                lt = z3.ToReal(lt) if lty == 'int' else lt
                rt = z3.ToReal(rt) if rty == 'int' else rt
            op = {sa_ops.add: lambda a, b: a + b, sa_ops.sub: lambda a, b: a - b,
                  sa_ops.mul: lambda a, b: a * b}[expr.operator]
            return op(lt, rt), ops.z_or(ln, rn), ty
        raise Undecided('SQL scalar expression not interpreted: %s (%s)'
                        % (expr, type(expr).__name__))

    def pred(self, clause, table, key, binds):
        """z3 Bool: the WHERE clause holds (is TRUE, not NULL) for the row."""
        if clause is None:
            return z3.BoolVal(True)
        if isinstance(clause, sa_el.BooleanClauseList):
            parts = [self.pred(c, table, key, binds) for c in clause.clauses]
            if clause.operator is sa_ops.and_:
                return z3.And(*parts)
            if clause.operator is sa_ops.or_:
                return z3.Or(*parts)
            raise Undecided('boolean operator %s' % clause.operator)
        if isinstance(clause, sa_el.Grouping):
            return self.pred(clause.element, table, key, binds)
        if isinstance(clause, sa_el.UnaryExpression) and \
                clause.operator is sa_ops.inv:
            # NOT over a two-valued sub-predicate (no NULL operands checked
            # by the sub-call: conservative -> undecided when nullable)
            return z3.Not(self.pred(clause.element, table, key, binds))
        if isinstance(clause, sa_el.BinaryExpression):
            op = clause.operator
            if op in (sa_ops.in_op, sa_ops.not_in_op):
                lt, ln, lty = self.term_of(clause.left, table, key, binds)
                r = clause.right
                coll = binds.get(r.key) if isinstance(r, sa_el.BindParameter) \
                    and r.key in binds else getattr(r, 'value', None)
                member = self.member(lt, lty, coll)
                res = z3.And(z3.Not(ops.z3bool(ln)), member)
                if op is sa_ops.not_in_op:
                    res = z3.And(z3.Not(ops.z3bool(ln)), z3.Not(member))
                return res
            if op in (sa_ops.is_, sa_ops.is_not):
                lt, ln, lty = self.term_of(clause.left, table, key, binds)
                rt, rn, rty = self.term_of(clause.right, table, key, binds)
                if rt is None:
                    r = ops.z3bool(ln)
                    return r if op is sa_ops.is_ else z3.Not(r)
                raise Undecided('IS with non-NULL operand')
            lt, ln, lty = self.term_of(clause.left, table, key, binds)
            rt, rn, rty = self.term_of(clause.right, table, key, binds)
            if lt is None or rt is None:
                return z3.BoolVal(False)       # comparison with NULL
            if 'real' in (lty, rty):
                lt = z3.ToReal(lt) if lty == 'int' else lt
                rt = z3.ToReal(rt) if rty == 'int' else rt
            cmp_ = {sa_ops.eq: lambda a, b: a == b,
                    sa_ops.ne: lambda a, b: a != b,
                    sa_ops.lt: lambda a, b: a < b,
                    sa_ops.le: lambda a, b: a <= b,
                    sa_ops.gt: lambda a, b: a > b,
                    sa_ops.ge: lambda a, b: a >= b}.get(op)
            if cmp_ is None:
                raise Undecided('SQL operator %s' % op)
            return z3.And(z3.Not(ops.z3bool(ln)), z3.Not(ops.z3bool(rn)),
                          cmp_(lt, rt))
        raise Undecided('SQL predicate not interpreted: %s (%s)'
                        % (clause, type(clause).__name__))

    def member(self, term, ty, coll):
        if isinstance(coll, SSet):
            return z3.Select(coll.arr, term)
        if isinstance(coll, SMap):
            return z3.Select(coll.dom, term)
        if isinstance(coll, SList):
            j = z3.Int(self.I.ex.fresh_name('j.member'))
            return z3.Exists([j], z3.And(j >= 0, j < coll.len,
                                         z3.Select(coll.arr, j) == term))
        if isinstance(coll, (VList, VSet, list, tuple, set, frozenset)):
            items = coll.items if isinstance(coll, (VList, VSet)) else coll
            return ops.z3bool(ops.z_or(*[term == to_term(x, ty) for x in items]))
        if hasattr(coll, 'sequence'):
            # lazily built collection (generator over a symbolic sequence)
            seq = coll.sequence(self.I, 'in')
            i = z3.Int(self.I.ex.fresh_name('i.member'))
            el = seq.element(self.I, i)
            return z3.Exists([i], z3.And(i >= 0, i < seq.len,
                                         to_term(el, ty) == term))
        raise Undecided('IN over %r' % (coll,))

    # --------------------------------------------------------- key pinning
    def pinned_key(self, clause, table, binds):
        """If the WHERE clause is a conjunction containing equalities on every
        key column, return the key term; else None."""
        conj = []

        def flat(c):
            if isinstance(c, sa_el.BooleanClauseList) and c.operator is sa_ops.and_:
                for x in c.clauses:
                    flat(x)
            elif isinstance(c, sa_el.Grouping):
                flat(c.element)
            elif c is not None:
                conj.append(c)
        flat(clause)
        found = {}
        for c in conj:
            if isinstance(c, sa_el.BinaryExpression) and c.operator is sa_ops.eq:
                for a, b in ((c.left, c.right), (c.right, c.left)):
                    if getattr(a, 'table', None) is not None and \
                            getattr(a.table, 'name', None) == table.name and \
                            a.name in table.keycols and \
                            isinstance(b, sa_el.BindParameter):
                        t, n, ty = self.term_of(b, table, None, binds)
                        if t is not None:
                            found[a.name] = t
        if set(found) == set(table.keycols):
            return table.mk_key(**found)
        return None

    # -------------------------------------------------------------- DML
    def execute(self, stmt, binds):
        I = self.I
        if isinstance(stmt, sa_dml.Update):
            return self.do_update(stmt, binds)
        if isinstance(stmt, sa_dml.Delete):
            return self.do_delete(stmt, binds)
        if isinstance(stmt, sa_dml.Insert):
            return self.do_insert(stmt, binds)
        raise Undecided('statement kind %s' % type(stmt).__name__)

    def _values(self, stmt, table, key, binds):
        vals = {}
        for col, expr in stmt._values.items():
            name = col.name if hasattr(col, 'name') else str(col)
            if name in IGNORED_COLUMNS:
                continue
            t, n, ty = self.term_of(expr, table, key, binds)
            vals[name] = (t, n, ty)
        return vals

    def do_update(self, stmt, binds):
        table = self.tables[stmt.table.name]
        where = stmt.whereclause
        ks = sort_of(table.kty)
        k = z3.Const('k!upd.' + table.name, ks)
        cond = z3.And(z3.Select(table.exists, k), self.pred(where, table, k, binds))
        vals = self._values(stmt, table, k, binds)
        pk = self.pinned_key(where, table, binds)
        new = table.clone()
        for cn, (t, n, ty) in vals.items():
            if cn in table.keycols:
                raise Undecided('update of key column %s.%s' % (table.name, cn))
            cty = table.cols[cn][0]
            if t is not None and cty == 'real' and ty == 'int':
                t = z3.ToReal(t)
            if pk is not None:
                c = z3.substitute(cond, (k, pk))
                tv = z3.substitute(t, (k, pk)) if t is not None else None
                if tv is not None:
                    new.data[cn] = z3.If(c, z3.Store(table.data[cn], pk, tv),
                                         table.data[cn])
                if cn in table.null:
                    new.null[cn] = z3.If(c, z3.Store(table.null[cn], pk,
                                                     ops.z3bool(n)),
                                         table.null[cn])
            else:
                if t is not None:
                    new.data[cn] = z3.Lambda([k], z3.If(
                        cond, t, z3.Select(table.data[cn], k)))
                if cn in table.null:
                    new.null[cn] = z3.Lambda([k], z3.If(
                        cond, ops.z3bool(n), z3.Select(table.null[cn], k)))
        self.tables[table.name] = new
        self.writes.append((table.name, 'update', tuple(vals)))
        self.I.event('db.write', table.name, 'update', self._tid())
        if pk is not None:
            rc = z3.If(z3.substitute(cond, (k, pk)), 1, 0)
            return ExecResult(rowcount=from_term(rc, 'int'))
        cnt = z3.Int(self.I.ex.fresh_name('rowcount.' + table.name))
        self.I.ex.assume(cnt >= 0)
        w = z3.Const(self.I.ex.fresh_name('w.upd'), ks)
        self.I.ex.assume(z3.Implies(cnt > 0, z3.substitute(cond, (k, w))))
        self.I.ex.hyp(z3.Implies(cnt == 0, ops.forall([k], z3.Not(cond))))
        return ExecResult(rowcount=Sym(cnt, 'int'))

    def do_delete(self, stmt, binds):
        table = self.tables[stmt.table.name]
        where = stmt.whereclause
        ks = sort_of(table.kty)
        k = z3.Const('k!del.' + table.name, ks)
        cond = z3.And(z3.Select(table.exists, k), self.pred(where, table, k, binds))
        pk = self.pinned_key(where, table, binds)
        new = table.clone()
        if pk is not None:
            c = z3.substitute(cond, (k, pk))
            new.exists = z3.If(c, z3.Store(table.exists, pk, z3.BoolVal(False)),
                               table.exists)
        else:
            new.exists = z3.Lambda([k], z3.And(z3.Select(table.exists, k),
                                               z3.Not(cond)))
        self.tables[table.name] = new
        self.writes.append((table.name, 'delete', ()))
        self.I.event('db.write', table.name, 'delete', self._tid())
        hook = getattr(self, 'on_delete_' + table.name, None)
        if hook is not None:
            hook(stmt, table, where, binds, k, cond)
        if pk is not None:
            rc = z3.If(z3.substitute(cond, (k, pk)), 1, 0)
            return ExecResult(rowcount=from_term(rc, 'int'))
        cnt = z3.Int(self.I.ex.fresh_name('rowcount.' + table.name))
        self.I.ex.assume(cnt >= 0)
        w = z3.Const(self.I.ex.fresh_name('w.del'), ks)
        self.I.ex.assume(z3.Implies(cnt > 0, z3.substitute(cond, (k, w))))
        self.I.ex.hyp(z3.Implies(cnt == 0, ops.forall([k], z3.Not(cond))))
        return ExecResult(rowcount=Sym(cnt, 'int'))

    def do_insert(self, stmt, binds):
        table = self.tables[stmt.table.name]
        vals = self._values(stmt, table, None, binds)
        new = table.clone()
        if table.kty == 'int' and table.keycols[0] in vals and \
                vals[table.keycols[0]][0] is not None:
            # explicit primary key
            from oslo_db import exception as db_exc
            from pyvc.values import VList
            key = vals[table.keycols[0]][0]
            if self.I.ex.branch(z3.Select(table.exists, key)):
                self.I.raise_(db_exc.DBDuplicateEntry,
                              columns=VList([table.keycols[0]]))
        elif table.kty == 'int':
            key = z3.Int(self.I.ex.fresh_name('newid.' + table.name))
            # A-key: autoincrement ids are fresh and positive
            self.I.ex.assume(z3.And(key > 0, z3.Not(z3.Select(table.exists, key))))
        else:
            missing = [c for c in table.keycols if c not in vals]
            if missing:
                raise Undecided('insert into %s without key column %s'
                                % (table.name, missing))
            key = table.mk_key(**{c: vals[c][0] for c in table.keycols})
            dup = z3.Select(table.exists, key)
            hook = self.I.registry.get('on_duplicate')
            if hook is not None:
                hook(self.I, table, dup)
            else:
                from oslo_db import exception as db_exc
                if self.I.ex.branch(dup):
                    self.I.raise_(db_exc.DBDuplicateEntry)
        uq = getattr(self, 'unique_check_' + table.name, None)
        if uq is not None:
            uq(vals)
        if table.name in self.I.registry.get('unique_checks', ()):
            self._unique_constraints(table, vals)
        new.exists = z3.Store(table.exists, key, z3.BoolVal(True))
        for cn in table.data:
            cty = table.cols[cn][0]
            if cn in vals:
                t, n, ty = vals[cn]
                if t is not None:
                    if cty == 'real' and ty == 'int':
                        t = z3.ToReal(t)
                    new.data[cn] = z3.Store(table.data[cn], key, t)
                if cn in table.null:
                    new.null[cn] = z3.Store(table.null[cn], key, ops.z3bool(n))
            else:
                default = self._column_default(table, cn)
                if default is not None:
                    new.data[cn] = z3.Store(table.data[cn], key,
                                            to_term(default, cty))
                    if cn in table.null:
                        new.null[cn] = z3.Store(table.null[cn], key,
                                                z3.BoolVal(False))
                elif cn in table.null:
                    new.null[cn] = z3.Store(table.null[cn], key, z3.BoolVal(True))
        self.tables[table.name] = new
        self.writes.append((table.name, 'insert', tuple(vals)))
        self.I.event('db.write', table.name, 'insert', self._tid())
        hook = getattr(self, 'on_insert_' + table.name, None)
        if hook is not None:
            hook(vals, key)
        return ExecResult(rowcount=1,
                          lastrowid=from_term(key, 'int') if table.kty == 'int' else None)

    def bulk_insert(self, table_name, rows):
        """INSERT of a sequence of parameter dicts (executemany) into a table
        with an autoincrement key: one fresh row per element; with the
        UNIQUE constraints enabled for the table, a value that exists already
        or occurs twice raises DBDuplicateEntry and inserts nothing."""
        I = self.I
        table = self.tables[table_name]
        if table.kty != 'int':
            raise Undecided('bulk insert into %s' % table_name)
        seq = I.loop_sequence(rows, 'bulk') if not hasattr(rows, 'sequence') \
            else rows.sequence(I, 'bulk')
        n = seq.len if not isinstance(seq.len, int) else z3.IntVal(seq.len)
        q = z3.Int(I.ex.fresh_name('q.bulk'))
        row = seq.element(I, q)
        if isinstance(row, tuple):
            row = row[-1]
        if not isinstance(row, VDict):
            raise Undecided('bulk insert of %r' % (row,))
        vals = {}
        for cn, v in row.items.items():
            if cn in IGNORED_COLUMNS:
                continue
            if cn in table.keycols:
                raise Undecided('bulk insert with explicit keys')
            vals[cn] = to_term(v, table.cols[cn][0])
        base = I.ex.fresh_name('bulk.' + table_name)
        newid = z3.Function(base + '.id', z3.IntSort(), z3.IntSort())
        qof = z3.Function(base + '.q', z3.IntSort(), z3.IntSort())
        k = z3.Int('k!' + base)
        q2 = z3.Int('q2!' + base)
        inr = z3.And(q >= 0, q < n)
        if table_name in I.registry.get('unique_checks', ()):
            import sqlalchemy as _sa
            from oslo_db import exception as db_exc
            for c in table.sa.constraints:
                if isinstance(c, _sa.UniqueConstraint) and len(c.columns) == 1:
                    cn = list(c.columns)[0].name
                    if cn not in vals:
                        continue
                    if I.ex.branch(z3.Bool(I.ex.fresh_name('dup.' + cn))):
                        # some inserted value exists already or occurs twice
                        wq = z3.Int(I.ex.fresh_name('dup.q'))
                        wk = z3.Int(I.ex.fresh_name('dup.k'))
                        wq2 = z3.Int(I.ex.fresh_name('dup.q2'))
                        vq = z3.substitute(vals[cn], (q, wq))
                        I.ex.assume(z3.And(wq >= 0, wq < n, z3.Or(
                            z3.And(z3.Select(table.exists, wk),
                                   z3.Select(table.data[cn], wk) == vq),
                            z3.And(wq2 >= 0, wq2 < n, wq2 != wq,
                                   z3.substitute(vals[cn], (q, wq2)) == vq))))
                        I.raise_(db_exc.DBDuplicateEntry, columns=VList([cn]))
                    I.ex.hyp(ops.forall([q, k], z3.Implies(
                        z3.And(inr, z3.Select(table.exists, k)),
                        z3.Select(table.data[cn], k) != vals[cn]),
                        patterns=[z3.MultiPattern(z3.Select(table.exists, k),
                                                  vals[cn])]
                        if _mentions_var(vals[cn], q) else None))
                    v2 = z3.substitute(vals[cn], (q, q2))
                    I.ex.hyp(ops.forall([q, q2], z3.Implies(
                        z3.And(inr, q2 >= 0, q2 < n, q != q2),
                        vals[cn] != v2)))
        I.ex.hyp(ops.forall([q], z3.Implies(inr, z3.And(
            newid(q) > 0, z3.Not(z3.Select(table.exists, newid(q))),
            qof(newid(q)) == q)), patterns=[newid(q)]))
        ins = z3.And(qof(k) >= 0, qof(k) < n, newid(qof(k)) == k)
        new = table.clone()
        new.exists = z3.Lambda([k], z3.Or(z3.Select(table.exists, k), ins))
        for cn in table.data:
            if cn in vals:
                new.data[cn] = z3.Lambda([k], z3.If(
                    ins, z3.substitute(vals[cn], (q, qof(k))),
                    z3.Select(table.data[cn], k)))
                if cn in table.null:
                    new.null[cn] = z3.Lambda([k], z3.If(
                        ins, z3.BoolVal(False), z3.Select(table.null[cn], k)))
            elif cn in table.null:
                new.null[cn] = z3.Lambda([k], z3.If(
                    ins, z3.BoolVal(self._column_default(table, cn) is None),
                    z3.Select(table.null[cn], k)))
        self.tables[table_name] = new
        self.writes.append((table_name, 'insert', tuple(vals)))
        I.event('db.write', table_name, 'insert', self._tid())
        I.ghost['bulk.' + table_name] = (newid, qof, n, seq)
        I.ghost['bulk.rows.' + table_name] = rows
        return ExecResult(rowcount=from_term(n, 'int'))

    def _unique_constraints(self, table, vals):
        """single-column UNIQUE constraints of the real table metadata: an
        insert of an existing value raises DBDuplicateEntry naming the
        column (A-key)"""
        import sqlalchemy as _sa
        from oslo_db import exception as db_exc
        from pyvc.values import VList
        ks = sort_of(table.kty)
        for c in table.sa.constraints:
            if not isinstance(c, _sa.UniqueConstraint) or len(c.columns) != 1:
                continue
            cn = list(c.columns)[0].name
            if cn not in vals or vals[cn][0] is None:
                continue
            v = vals[cn][0]
            k = z3.Const('k!uq.' + table.name, ks)
            same = z3.And(z3.Select(table.exists, k),
                          z3.Select(table.data[cn], k) == v)
            if cn in table.null:
                same = z3.And(same, z3.Not(z3.Select(table.null[cn], k)))
            if self.I.ex.branch(z3.Bool(self.I.ex.fresh_name('dup.' + cn))):
                w = z3.Const(self.I.ex.fresh_name('w.uq'), ks)
                self.I.ex.assume(z3.substitute(same, (k, w)))
                self.I.raise_(db_exc.DBDuplicateEntry, columns=VList([cn]))
            self.I.ex.hyp(ops.forall([k], z3.Not(same),
                                     patterns=[z3.Select(table.exists, k)]))

    def _column_default(self, table, cn):
        c = table.sa.columns[cn]
        if c.default is not None and getattr(c.default, 'is_scalar', False):
            return c.default.arg
        if c.server_default is not None:
            try:
                return int(str(c.server_default.arg))
            except Exception:
                return None
        return None

    # ------------------------------------------------ allocations aggregates
    def on_insert_allocations(self, vals, key):
        rp, rc = vals['resource_provider_id'][0], vals['resource_class_id'][0]
        c, used = vals['consumer_id'][0], vals['used'][0]
        pk = sort_of(PAIR).mk(rp, rc)
        hk = sort_of(HELD_KEY).mk(c, rp, rc)
        self.usage = z3.Store(self.usage, pk, z3.Select(self.usage, pk) + used)
        self.held = z3.Store(self.held, hk, z3.Select(self.held, hk) + used)
        self.total_held = z3.Store(self.total_held, c,
                                   z3.Select(self.total_held, c) + used)

    def on_delete_allocations(self, stmt, table, where, binds, k, cond):
        """A-sum: only the two forms used by the tree are given aggregate
        semantics: WHERE consumer_id = :c  and  WHERE id IN (:ids)."""
        from sqlalchemy.sql import elements as el
        if isinstance(where, el.BinaryExpression) and where.operator is sa_ops.eq \
                and getattr(where.left, 'name', None) == 'consumer_id':
            c, n, ty = self.term_of(where.right, table, None, binds)
            hs = sort_of(HELD_KEY)
            p = z3.Const('p!delc', sort_of(PAIR))
            h = z3.Const('h!delc', hs)
            ps = sort_of(PAIR)
            self.usage = z3.Lambda([p], z3.Select(self.usage, p) - z3.Select(
                self.held, hs.mk(c, ps.accessor(0, 0)(p), ps.accessor(0, 1)(p))))
            self.held = z3.Lambda([h], z3.If(hs.accessor(0, 0)(h) == c, 0,
                                             z3.Select(self.held, h)))
            self.total_held = z3.Store(self.total_held, c, z3.IntVal(0))
            return
        # any other delete: aggregates become unknown but stay well-formed
        tag = self.I.ex.fresh_name('aggr')
        self.usage = z3.Const(tag + '.usage', self.usage.sort())
        self.held = z3.Const(tag + '.held', self.held.sort())
        self.total_held = z3.Const(tag + '.total_held', self.total_held.sort())
        self.aggregates_havocked = True
