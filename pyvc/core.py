"""Path exploration, path condition, obligations.

Exploration is by re-execution: a proof script is run once per path; every
symbolic decision goes through Explorer.branch(), which replays a recorded
prefix of decisions and afterwards picks the first feasible alternative and
queues the others.  Fresh symbol names are numbered per run, so equal
prefixes produce identical terms.
"""
import time
import z3


class PathEnd(Exception):
    """Silently ends the current path (e.g. after a loop-body check)."""


class Infeasible(Exception):
    """The current path condition is unsatisfiable."""


class Undecided(Exception):
    """The engine cannot handle a construct: verdict `undecided`, never a
    violation."""


class Restart(Exception):
    """Re-run the whole script (a loop frame was learnt)."""


class Obligation(object):
    __slots__ = ('name', 'kind', 'pc', 'hyps', 'goal', 'path', 'info')

    def __init__(self, name, kind, pc, hyps, goal, path, info=None):
        self.name = name
        self.kind = kind        # 'T' | 'C' | 'A' | 'G' | 'cover' | 'canary'
        self.pc = pc
        self.hyps = hyps
        self.goal = goal
        self.path = path
        self.info = info or {}


class Explorer(object):
    def __init__(self, feas_timeout_ms=2000, max_paths=4000):
        self.feas_timeout_ms = feas_timeout_ms
        self.max_paths = max_paths
        self.obligations = []
        self.paths = 0
        self.path_log = []
        self.feas_time = 0.0
        self._feas_cache = {}

    # -- per-run state ------------------------------------------------------
    def _reset(self, prefix):
        self.prefix = prefix
        self.trace = []
        self.pc = []          # quantifier-free path condition
        self.hyps = []        # quantified / definitional hypotheses
        self.counter = 0
        self.solver = z3.Solver()
        self.solver.set('timeout', self.feas_timeout_ms)
        self.notes = []
        self.qdepth = 0
        self._salt = ()
        self.trial = 0

    def fresh_name(self, base):
        self.counter += 1
        return '%s!%d' % (base, self.counter)

    def assume(self, f):
        """Add a quantifier-free fact to the path condition."""
        if isinstance(f, bool):
            if not f:
                raise Infeasible()
            return
        f = z3.simplify(f)
        if z3.is_true(f):
            return
        if z3.is_false(f):
            raise Infeasible()
        self.pc.append(f)
        self.solver.add(f)

    def hyp(self, f):
        """Add a (typically quantified) hypothesis: used when discharging
        obligations, not for path feasibility."""
        self.hyps.append(f)

    def push_assumption(self, f):
        """Temporarily strengthen the path condition (if-conversion)."""
        self.solver.push()
        self.solver.add(f)
        self._salt = getattr(self, '_salt', ()) + (f.sexpr(),)
        self.pc.append(f)

    def pop_assumption(self):
        self.solver.pop()
        self._salt = self._salt[:-1]
        self.pc.pop()

    def _check(self, extra):
        key = (tuple(self.trace), getattr(self, '_salt', ()), extra.sexpr())
        if key in self._feas_cache:
            return self._feas_cache[key]
        t0 = time.time()
        r = self.solver.check(extra)
        self.feas_time += time.time() - t0
        res = (r != z3.unsat)
        self._feas_cache[key] = res
        return res

    def branch(self, cond, tag=None):
        """Decide a symbolic Boolean; returns the Python bool chosen on this
        path."""
        if isinstance(cond, bool):
            return cond
        cond = z3.simplify(cond)
        if z3.is_true(cond):
            return True
        if z3.is_false(cond):
            return False
        if getattr(self, 'trial', 0):
            # inside an if-conversion trial: decisions must be forced by the
            # (temporarily strengthened) path condition; nothing is recorded
            t_ok = self._check(cond)
            f_ok = self._check(z3.Not(cond))
            if t_ok and f_ok:
                raise Undecided('data-dependent branch inside a trial: %s' % cond)
            if not t_ok and not f_ok:
                raise Infeasible()
            return t_ok
        idx = len(self.trace)
        if idx < len(self.prefix):
            choice = self.prefix[idx]
        else:
            t_ok = self._check(cond)
            f_ok = self._check(z3.Not(cond))
            if t_ok and f_ok and self.qdepth > 0:
                raise Undecided('data-dependent branch inside a quantified '
                                'comprehension: %s' % cond)
            if t_ok and f_ok:
                choice = True
                self.pending.append(self.trace + [False])
            elif t_ok:
                choice = True
            elif f_ok:
                choice = False
            else:
                raise Infeasible()
        self.trace.append(choice)
        c = cond if choice else z3.Not(cond)
        self.pc.append(c)
        self.solver.add(c)
        return choice

    def choose(self, n, tag=None):
        """Non-deterministic choice among n alternatives (all explored)."""
        if getattr(self, 'trial', 0):
            raise Undecided('non-deterministic choice inside a trial')
        idx = len(self.trace)
        if idx < len(self.prefix):
            choice = self.prefix[idx]
        else:
            choice = 0
            for k in range(n - 1, 0, -1):
                self.pending.append(self.trace + [k])
        self.trace.append(choice)
        return choice

    def oblige(self, name, goal, kind='A', info=None):
        if isinstance(goal, bool):
            goal = z3.BoolVal(goal)
        self.obligations.append(Obligation(
            name, kind, list(self.pc), list(self.hyps), goal,
            tuple(self.trace), info))

    # -- driver ---------------------------------------------------------------
    def explore(self, script):
        """script(explorer) is run once per path.  Returns number of
        completed paths."""
        self.pending = [[]]
        completed = 0
        restarts = 0
        while self.pending:
            prefix = self.pending.pop()
            self._reset(prefix)
            self.paths += 1
            if self.paths > self.max_paths:
                raise Undecided('path budget exceeded (%d)' % self.max_paths)
            try:
                script(self)
                completed += 1
                self.path_log.append((tuple(self.trace), 'end'))
            except PathEnd:
                completed += 1
                self.path_log.append((tuple(self.trace), 'pathend'))
            except Infeasible:
                self.path_log.append((tuple(self.trace), 'infeasible'))
            except Restart:
                restarts += 1
                if restarts > 40:
                    raise Undecided('too many restarts while learning loop frames')
                self.pending = [[]]
                self.obligations = []
                self._feas_cache = {}
                completed = 0
        return completed
